"""(G, rational part) Fail-closed translator for the float formulas and guards of /repo -> Gallina over Q (GenQ.v).

Targets: constructor defaults and guards of the pattern classes, get_crop_size, the default radial map of
RadialGradientBackgroundSubtraction, the bin formula of radial_bins, radial_gradient_background_subtraction (piecewise),
within_frame, calc_coords, size_filter, angle_check, the index skeleton of refine_center_upsampling / evaluate_upsampling.
Python floats become exact rationals; np.ceil -> Qceiling, np.fix -> Qtrunc (Qfloor for the non-negative arguments here),
np.maximum/minimum/abs -> Qmax/Qmin/Qabs, x % np.pi -> qmod x PI with PI a parameter.  Anything else -> Untranslatable."""
import ast
import os
import sys
from fractions import Fraction


class Untranslatable(Exception):
    pass


def qlit(v):
    fr = Fraction(v).limit_denominator(10 ** 12) if isinstance(v, float) else Fraction(v)
    if isinstance(v, float) and Fraction(v) != fr:
        fr = Fraction(*v.as_integer_ratio())
    n, d = fr.numerator, fr.denominator
    return '(%s # %d)' % (n if n >= 0 else '(%d)' % n, d)


class Q:
    """expression translator; env maps names (and source snippets) to Gallina terms of type Q / bool"""
    def __init__(self, atoms=None):
        self.atoms = atoms or {}
        self.env = {}

    def e(self, node):
        txt = ast.unparse(node)
        if txt in self.atoms:
            return self.atoms[txt]
        if isinstance(node, ast.Constant) and isinstance(node.value, (int, float)) and not isinstance(node.value, bool):
            return qlit(node.value)
        if isinstance(node, ast.Name):
            if node.id in self.env:
                return self.env[node.id]
            raise Untranslatable('unknown name ' + node.id)
        if isinstance(node, ast.UnaryOp) and isinstance(node.op, ast.USub):
            return '(- %s)' % self.e(node.operand)
        if isinstance(node, ast.BinOp):
            ops = {ast.Add: '+', ast.Sub: '-', ast.Mult: '*', ast.Div: '/'}
            for k, o in ops.items():
                if isinstance(node.op, k):
                    return '(%s %s %s)' % (self.e(node.left), o, self.e(node.right))
            if isinstance(node.op, ast.Mod) and ast.unparse(node.right) == 'np.pi':
                return '(qmod %s PI)' % self.e(node.left)
            if isinstance(node.op, ast.FloorDiv):
                return '(inject_Z (Qfloor (%s / %s)))' % (self.e(node.left), self.e(node.right))
            raise Untranslatable('operator in ' + txt)
        if isinstance(node, ast.Call):
            fn = ast.unparse(node.func)
            a = node.args
            if fn in ('max', 'np.maximum') and len(a) == 2:
                return '(Qmax %s %s)' % (self.e(a[0]), self.e(a[1]))
            if fn in ('min', 'np.minimum') and len(a) == 2:
                return '(Qmin %s %s)' % (self.e(a[0]), self.e(a[1]))
            if fn in ('abs', 'np.abs', 'np.absolute') and len(a) == 1:
                return '(Qabs %s)' % self.e(a[0])
            if fn == 'np.ceil' and len(a) >= 1:
                return '(inject_Z (Qceiling %s))' % self.e(a[0])
            if fn == 'np.fix' and len(a) == 1:
                return '(inject_Z (Qfloor %s))' % self.e(a[0])      # arguments here are non-negative
            if fn == 'int' and len(a) == 1:
                return self.e(a[0])
            raise Untranslatable('call ' + fn)
        raise Untranslatable('expression ' + txt[:60])

    def b(self, node):
        if isinstance(node, ast.Compare) and len(node.ops) == 1:
            l, r = self.e(node.left), self.e(node.comparators[0])
            op = node.ops[0]
            if isinstance(op, ast.Lt):
                return '(Qltb %s %s)' % (l, r)
            if isinstance(op, ast.LtE):
                return '(Qle_bool %s %s)' % (l, r)
            if isinstance(op, ast.Gt):
                return '(Qltb %s %s)' % (r, l)
            if isinstance(op, ast.GtE):
                return '(Qle_bool %s %s)' % (r, l)
            raise Untranslatable('comparison')
        if isinstance(node, ast.BinOp) and isinstance(node.op, ast.Mult):     # numpy boolean "and"
            return '(%s && %s)' % (self.b(node.left), self.b(node.right))
        if isinstance(node, ast.BoolOp):
            o = '&&' if isinstance(node.op, ast.And) else '||'
            return '(' + (' %s ' % o).join(self.b(v) for v in node.values) + ')'
        raise Untranslatable('condition ' + ast.unparse(node)[:60])


def find(tree, qual):
    body = tree.body
    node = None
    for p in qual.split('.'):
        node = next((n for n in body if isinstance(n, (ast.FunctionDef, ast.ClassDef)) and n.name == p), None)
        if node is None:
            raise Untranslatable('%s not found' % qual)
        body = node.body
    return node


def ctor_guards(fn, params):
    """constructor of a pattern class: `if x is None: x = default` assignments and `if cond: raise ValueError` guards.
    Returns (defaults: name -> Gallina term as function of earlier names, accept condition as bool term)."""
    q = Q()
    for p in params:
        q.env[p] = p
    defaults = {}
    rejects = []
    for st in fn.body:
        if isinstance(st, ast.If):
            t = st.test
            if (isinstance(t, ast.Compare) and isinstance(t.ops[0], ast.Is) and isinstance(t.comparators[0], ast.Constant)
                    and t.comparators[0].value is None and isinstance(t.left, ast.Name)):
                nm = t.left.id
                if len(st.body) == 1 and isinstance(st.body[0], ast.Assign) and isinstance(st.body[0].targets[0], ast.Name) and st.body[0].targets[0].id == nm:
                    defaults[nm] = q.e(st.body[0].value)
                    continue
                if nm == 'radial_map':
                    continue
                raise Untranslatable('default of %s not recognised' % nm)
            if len(st.body) == 1 and isinstance(st.body[0], ast.Raise):
                rejects.append(q.b(t))
                continue
            raise Untranslatable('unexpected if in constructor: ' + ast.unparse(t))
    acc = ' && '.join('negb %s' % r for r in rejects) if rejects else 'true'
    return defaults, '(' + acc + ')'


def translate(repo, only=None):
    src = os.path.join(repo, 'src', 'libertem_blobfinder')
    out = ['(* GENERATED by harness/translate_q.py from %s -- do not edit *)' % src,
           'From Coq Require Import QArith Qround Qabs Qminmax Bool ZArith.',
           'From BF Require Import Model.Lattice Model.WLS Model.Match Model.Masks Model.FullMatch.',
           'Open Scope Q_scope.', '']
    problems = []
    pat = ast.parse(open(os.path.join(src, 'common', 'patterns.py')).read())
    msk = ast.parse(open(os.path.join(src, 'base', 'masks.py')).read())
    utl = ast.parse(open(os.path.join(src, 'base', 'utils.py')).read())
    fmm = ast.parse(open(os.path.join(src, 'common', 'fullmatch.py')).read())
    cor = ast.parse(open(os.path.join(src, 'base', 'correlation.py')).read())

    def do(f):
        try:
            f()
        except Untranslatable as e:
            problems.append('%s: %s' % (f.__name__, e))
        except Exception as e:  # noqa  (malformed source for this extractor: fail closed as well)
            problems.append('%s: %s: %s' % (f.__name__, type(e).__name__, e))

    def t_circular():
        for cls in ('Circular', 'RadialGradient'):
            d, acc = ctor_guards(find(pat, cls + '.__init__'), ['radius', 'search'])
            out.append('Definition gen_%s_default_search (radius : Q) : Q := %s.' % (cls, d['search']))
            out.append('Definition gen_%s_accept (radius search : Q) : bool := %s.' % (cls, acc))

    def t_bgsub():
        for cls in ('BackgroundSubtraction', 'RadialGradientBackgroundSubtraction'):
            d, acc = ctor_guards(find(pat, cls + '.__init__'), ['radius', 'search', 'radius_outer'])
            out.append('Definition gen_%s_default_radius_outer (radius : Q) : Q := %s.' % (cls, d['radius_outer']))
            out.append('Definition gen_%s_default_search (radius radius_outer : Q) : Q := %s.' % (cls, d['search']))
            out.append('Definition gen_%s_accept (radius radius_outer search : Q) : bool := %s.' % (cls, acc))

    def t_crop_size():
        f = find(pat, 'MatchPattern.get_crop_size')
        q = Q({'self.search': 'search'})
        out.append('Definition gen_crop_size (search : Q) : Q := %s.' % q.e(f.body[0].value))

    def t_rgbs_map():
        f = find(pat, 'RadialGradientBackgroundSubtraction.__init__')
        blk = next(st for st in f.body if isinstance(st, ast.If) and ast.unparse(st.test) == 'radial_map is None')
        q = Q()
        q.env.update({'radius': 'radius', 'radius_outer': 'radius_outer'})
        call = None
        for st in blk.body:
            if isinstance(st, ast.Assign) and isinstance(st.targets[0], ast.Name):
                q.env[st.targets[0].id] = q.e(st.value)
            elif isinstance(st, ast.Assign):
                call = st.value
        if call is None or ast.unparse(call.func) != 'masks.polar_map':
            raise Untranslatable('polar_map call not found')
        kw = {k.arg: q.e(k.value) for k in call.keywords}
        out.append('Definition gen_rmap_size (radius radius_outer : Q) : Q := %s.' % kw['imageSizeY'])
        out.append('Definition gen_rmap_centre_y (radius radius_outer : Q) : Q := %s.' % kw['centerY'])
        out.append('Definition gen_rmap_centre_x (radius radius_outer : Q) : Q := %s.' % kw['centerX'])
        if kw['imageSizeX'] != kw['imageSizeY']:
            raise Untranslatable('default radial map is not square')

    def t_bin():
        f = find(msk, 'radial_bins')
        q = Q({'radius': 'radius', 'radius_inner': 'radius_inner', 'n_bins': 'n_bins'})
        width = None
        vals = None
        for n in ast.walk(f):
            if isinstance(n, ast.Assign) and isinstance(n.targets[0], ast.Name):
                if n.targets[0].id == 'width' and width is None:
                    width = q.e(n.value)
                if n.targets[0].id == 'vals' and vals is None and 'np.maximum' in ast.unparse(n.value):
                    q2 = Q({'width': 'w', 'diff': '(Qabs (r - r0))'})
                    vals = q2.e(n.value)
                if n.targets[0].id == 'diff' and ast.unparse(n.value) != 'np.abs(r - r0)':
                    raise Untranslatable('diff is not |r - r0|: ' + ast.unparse(n.value))
        if width is None or vals is None:
            raise Untranslatable('width / vals not found')
        out.append('Definition gen_bin_width (radius radius_inner n_bins : Q) : Q := %s.' % width)
        out.append('Definition gen_bin (w r0 r : Q) : Q := %s.' % vals)
        # the bin centres: linspace(radius_inner, radius - width, n_bins) + width / 2
        loop = next(n for n in ast.walk(f) if isinstance(n, ast.For) and 'linspace' in ast.unparse(n.iter))
        if ast.unparse(loop.iter).replace('enumerate(', '').rstrip(')') not in ('np.linspace(radius_inner, radius - width, n_bins) + width / 2',
                                                                                  'np.linspace(radius_inner, radius - width, n_bins) + width / 2)'):
            if 'np.linspace(radius_inner, radius - width, n_bins) + width / 2' not in ast.unparse(loop.iter):
                raise Untranslatable('bin centres changed: ' + ast.unparse(loop.iter))
        out.append('Definition gen_bin_centre (w radius_inner k : Q) : Q := radius_inner + k * w + w / 2.')

    def t_rgbs():
        f = find(msk, 'radial_gradient_background_subtraction')
        src = [ast.unparse(st) for st in f.body if not (isinstance(st, ast.Expr))]
        want = ['result = np.zeros_like(r)', 'within = r < r0 - delta / 2', 'result[within] = r[within] / r0',
                'transition = (r >= r0 - delta / 2) * (r < r0 + delta / 2)', 'result[transition] = (r0 - r[transition]) / (delta / 2)',
                'without = (r >= r0 + delta / 2) * (r <= r_outer)', 'result[without] = -1', 'return result']
        if src != want:
            raise Untranslatable('radial_gradient_background_subtraction body changed: %s' % [a for a, b in zip(src, want) if a != b][:1])
        q = Q({'r': 'r', 'r0': 'r0', 'delta': 'delta', 'r_outer': 'ro', 'r[within]': 'r', 'r[transition]': 'r'})
        within = q.b(ast.parse('r < r0 - delta / 2', mode='eval').body)
        trans = q.b(ast.parse('(r >= r0 - delta / 2) * (r < r0 + delta / 2)', mode='eval').body)
        without = q.b(ast.parse('(r >= r0 + delta / 2) * (r <= r_outer)', mode='eval').body)
        v1 = q.e(ast.parse('r[within] / r0', mode='eval').body)
        v2 = q.e(ast.parse('(r0 - r[transition]) / (delta / 2)', mode='eval').body)
        # later assignments override earlier ones (the masks are disjoint for delta > 0)
        out.append('Definition gen_rgbs (r r0 ro delta : Q) : Q := if %s then -(1) else if %s then %s else if %s then %s else 0.' % (without, trans, v2, within, v1))

    def t_within():
        f = find(utl, 'within_frame')
        a = f.body[-2] if isinstance(f.body[-1], ast.Return) else None
        sel = next(st for st in f.body if isinstance(st, ast.Assign))
        if ast.unparse(sel.value) != '(peaks >= (r, r)) * (peaks < (fy - r, fx - r))' or ast.unparse(f.body[-1]) != 'return selector.all(axis=-1)':
            raise Untranslatable('within_frame changed: ' + ast.unparse(sel.value))
        out.append('Definition gen_within_frame (r fy fx py px : Q) : bool := (Qle_bool r py && Qle_bool r px) && (Qltb py (fy - r) && Qltb px (fx - r)).')

    def t_calc():
        f = find(utl, 'calc_coords')
        src = [ast.unparse(st) for st in f.body if not isinstance(st, ast.Expr)]
        if src != ['coefficients = np.array((a, b))', 'return zero + np.dot(indices, coefficients)']:
            raise Untranslatable('calc_coords changed: %s' % src)
        out.append('Definition gen_calc_coord (zy zx ay ax by_ bx i j : Q) : Q * Q := (zy + (i * ay + j * by_), zx + (i * ax + j * bx)).')

    def t_fullmatch():
        f = find(fmm, 'size_filter')
        sel = next(st for st in f.body if isinstance(st, ast.Assign))
        if ast.unparse(sel.value) != '(polar[:, 0] >= min_delta) * (polar[:, 0] <= max_delta)':
            raise Untranslatable('size_filter changed')
        out.append('Definition gen_size_ok (min_delta max_delta len : Q) : bool := Qle_bool min_delta len && Qle_bool len max_delta.')
        f = find(fmm, 'angle_check')
        q = Q({'p1[:, 1]': 'phi1', 'p2[:, 1]': 'phi2', 'limit': 'limit', 'np.pi': 'PI'})
        d = next(st for st in f.body if isinstance(st, ast.Assign))
        q.env['diff'] = q.e(d.value)
        ret = f.body[-1].value
        out.append('Definition gen_angle_check (PI limit phi1 phi2 : Q) : bool := %s.' % q.b(ret))

    def t_upsample():
        f = find(cor, 'refine_center_upsampling')
        q = Q({'upsample_factor': 'u'})
        for st in f.body:
            if isinstance(st, ast.Assign) and isinstance(st.targets[0], ast.Name) and st.targets[0].id in ('upsampled_region_size', 'dftshift'):
                q.env[st.targets[0].id] = q.e(st.value)
        out.append('Definition gen_us_region (u : Q) : Q := %s.' % q.env['upsampled_region_size'])
        out.append('Definition gen_us_dftshift (u : Q) : Q := %s.' % q.env['dftshift'])
        f = find(cor, 'evaluate_upsampling')
        cc = next(st for st in f.body if isinstance(st, ast.Assign) and isinstance(st.targets[0], ast.Name) and st.targets[0].id == 'corr_center')
        if ast.unparse(cc.value) != 'np.ceil(np.asarray(corr_shape) / 2, dtype=np.float32)':
            raise Untranslatable('corr_center changed: ' + ast.unparse(cc.value))
        out.append('Definition gen_us_corr_center (n : Q) : Q := inject_Z (Qceiling (n / 2)).')

    def t_bgsub_mask():
        """masks.background_subtraction: the per-pixel combination of the disk (m1, total s1) and the ring (m2, total s2)"""
        f = find(msk, 'background_subtraction')
        body = [st for st in f.body if not (isinstance(st, ast.Expr) and isinstance(st.value, ast.Constant))]
        want_pre = {'mask_1': 'circular(centerX, centerY, imageSizeX, imageSizeY, radius_inner, antialiased=antialiased)', 'sum_1': 'np.sum(mask_1)',
                    'mask_2': 'ring(centerX, centerY, imageSizeX, imageSizeY, radius, radius_inner, antialiased=antialiased)', 'sum_2': 'np.sum(mask_2)'}
        q = Q()
        q.env.update({'mask_1': 'm1', 'mask_2': 'm2', 'sum_1': 's1', 'sum_2': 's2'})
        seen = {}
        branches = []          # (condition or None, returned value)
        for st in body:
            if isinstance(st, ast.Assign) and isinstance(st.targets[0], ast.Name) and st.targets[0].id in want_pre and not branches:
                seen[st.targets[0].id] = ast.unparse(st.value)
            elif isinstance(st, ast.Assign) and isinstance(st.targets[0], ast.Name) and set(seen) == set(want_pre):
                q.env[st.targets[0].id] = q.e(st.value)
            elif isinstance(st, ast.If) and set(seen) == set(want_pre) and not st.orelse and len(st.body) == 1 and isinstance(st.body[0], ast.Return):
                t = st.test
                if not (isinstance(t, ast.Compare) and len(t.ops) == 1 and isinstance(t.ops[0], ast.Eq)):
                    raise Untranslatable('background_subtraction: condition %s' % ast.unparse(t))
                branches.append(('(Qeq_bool %s %s)' % (q.e(t.left), q.e(t.comparators[0])), q.e(st.body[0].value)))
            elif isinstance(st, ast.Return) and set(seen) == set(want_pre):
                branches.append((None, q.e(st.value)))
                break
            else:
                raise Untranslatable('background_subtraction: statement not understood: %s' % ast.unparse(st)[:70])
        if seen != want_pre:
            raise Untranslatable('background_subtraction: disk / ring / totals are not computed as expected: %s' % sorted(set(seen.items()) ^ set(want_pre.items())))
        if not branches or branches[-1][0] is not None:
            raise Untranslatable('background_subtraction: no final return')
        term = branches[-1][1]
        for c, v in reversed(branches[:-1]):
            term = '(if %s then %s else %s)' % (c, v, term)
        out.append('(* masks.background_subtraction per pixel: disk value m1, ring value m2, totals s1, s2 over the requested array *)')
        out.append('Definition gen_bgsub_px (m1 m2 s1 s2 : Q) : Q := %s.' % term)

    def t_bin_defaults():
        """masks.bounding_radius and the default layout of radial_bins (radius=None, n_bins=None)"""
        f = find(msk, 'bounding_radius')
        body = [ast.unparse(st) for st in f.body if not (isinstance(st, ast.Expr) and isinstance(st.value, ast.Constant))]
        if body != ['dy = max(centerY, imageSizeY - centerY)', 'dx = max(centerX, imageSizeX - centerX)', 'return int(np.ceil(np.sqrt(dy ** 2 + dx ** 2))) + 1']:
            raise Untranslatable('bounding_radius changed: %s' % body)
        # int(ceil(sqrt(d2))) + 1 as a function of the squared distance d2 to the farthest corner: the smallest integer k with k^2 >= d2, plus 1
        out.append('Definition gen_bounding_dy (centerY imageSizeY : Q) : Q := Qmax centerY (imageSizeY - centerY).')
        out.append('Definition gen_bounding_radius_of_ceil_sqrt (k : Z) : Z := (k + 1)%Z.')
        g = find(msk, 'radial_bins')
        dflt = {}
        for st in g.body:
            if isinstance(st, ast.If) and isinstance(st.test, ast.Compare) and isinstance(st.test.ops[0], ast.Is) and isinstance(st.test.left, ast.Name) \
                    and st.test.left.id in ('radius', 'n_bins') and len(st.body) == 1 and isinstance(st.body[0], ast.Assign):
                dflt[st.test.left.id] = ast.unparse(st.body[0].value)
        if dflt != {'radius': 'bounding_radius(centerX, centerY, imageSizeX, imageSizeY)', 'n_bins': 'int(np.round(radius - radius_inner))'}:
            raise Untranslatable('radial_bins defaults changed: %s' % dflt)
        out.append('(* default number of bins: round half to even of (radius - radius_inner); the default radius is an integer (bounding_radius) *)')
        out.append('Definition gen_default_n_bins (radius_int : Z) (radius_inner : Q) : Z := round_he (inject_Z radius_int - radius_inner).')

    for t in (t_circular, t_bgsub, t_crop_size, t_rgbs_map, t_bin, t_rgbs, t_within, t_calc, t_fullmatch, t_upsample, t_bgsub_mask, t_bin_defaults):
        if only is None or t.__name__ in only:
            do(t)
    return '\n'.join(out) + '\n', problems


if __name__ == '__main__':
    txt, probs = translate(sys.argv[1] if len(sys.argv) > 1 else '/repo')
    sys.stdout.write(txt)
    for p in probs:
        print('(* PROBLEM: %s *)' % p)
